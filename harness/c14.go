package main

import (
	"encoding/json"
	"fmt"
	"os"
	"strings"
	"sync/atomic"
	"time"

	"github.com/crillab/gophersat/solver"
)

// CPCase: a problem solved / optimised with the cutting-planes strategy (C14).
type CPCase struct {
	Kind string   `json:"kind"` // cnf | constr | opt
	Cnf  *CnfCase `json:"cnf,omitempty"`
	Opt  *OptCase `json:"opt,omitempty"`
	PbOp *PbOpCase `json:"pbop,omitempty"`
	AMO  bool     `json:"amo"`
	Fam  int      `json:"fam,omitempty"` // 1 + index in the fixed family (0 = seeded case)
	DB   int      `json:"db,omitempty"`  // > 0: limit on the learned constraints (their database is reduced during the run)
}

// genCPReduction: cardinality / PB problems that need a search (as for C02 / C03), solved under cutting
// planes with a learned-constraint limit of 4 or 8: the database of learned PB constraints is reduced
// (reduceLearnedPB, unwatchPB) during the run.
func genCPReduction(r *Rng, tier string) CPCase {
	c := CPCase{DB: []int{4, 8}[r.Intn(2)]}
	if r.Chance(1, 3) {
		c.Kind = "opt"
		o := genOptCase(r, tier)
		c.Opt = &o
		return c
	}
	c.Kind = "constr"
	cc := genSearchyCase(r, tier)
	cc.Front = "pb"
	n := maxVarConstrs(cc.Constrs)
	cc.Constrs = append(cc.Constrs, Constr{Kind: "atleast", Lits: []int{n}, N: 0})
	c.Opt = &OptCase{Constrs: cc.Constrs, NoCost: true}
	return c
}

func genCPCase(r *Rng, tier string) CPCase {
	c := CPCase{AMO: r.Chance(1, 3)}
	switch r.Intn(6) {
	case 0:
		c.Kind = "cnf"
		n := r.Range(3, 12)
		var cnf [][]int
		switch r.Intn(3) {
		case 0:
			cnf = genKSat(r, n, r.Range(2*n, 5*n), 3)
		case 1:
			h := r.Range(2, 4)
			cnf = shuffleCnf(r, genPigeon(h+r.Intn(2), h))
		default:
			a := genAmoCase(r, tier)
			cnf = a.Cnf
		}
		cc := CnfCase{NbVars: maxVarCnf(cnf), Clauses: cnf, Front: "slice"}
		c.Cnf = &cc
	case 1, 2:
		c.Kind = "constr"
		cc := genSearchyCase(r, tier)
		if r.Chance(1, 4) {
			cc = genConstrCase(r, tier)
		}
		cc.Front = "pb"
		n := maxVarConstrs(cc.Constrs)
		cc.Constrs = append(cc.Constrs, Constr{Kind: "atleast", Lits: []int{n}, N: 0})
		c.Opt = &OptCase{Constrs: cc.Constrs, NoCost: true}
	default:
		c.Kind = "opt"
		o := genOptCase(r, tier)
		c.Opt = &o
	}
	return c
}

// c14FamilySeed fixes the enumerated family of end-to-end cutting-planes cases: it does not
// depend on VERIF_SEED, so that its failing members can be listed one by one in
// known_findings.jsonl (DESIGN.md §4, "exact input").
const c14FamilySeed = 0xC14C14
const c14FamilySize = 1500
const c14FamilySizeThorough = 20000

// PbOpCase: one operation of the pbSet arithmetic on random signed sets (exact differential
// with the Lean mirror GS.PbSet.*).
type PbOpCase struct {
	Op     string `json:"op"` // clash | divide | round | roundtrip
	W1     []int  `json:"w1"`
	C1     int    `json:"c1"`
	W2     []int  `json:"w2,omitempty"`
	C2     int    `json:"c2,omitempty"`
	Coeff  int    `json:"coeff,omitempty"`
	Model  []int  `json:"model,omitempty"`
	Locked int    `json:"locked,omitempty"`
}

func genPbOpCase(r *Rng, tier string) CPCase {
	n := r.Range(1, 8)
	ws := func() []int {
		w := make([]int, n)
		for i := range w {
			if r.Chance(1, 4) {
				continue
			}
			w[i] = r.Range(-9, 9)
		}
		return w
	}
	c := PbOpCase{Op: []string{"clash", "divide", "round", "round", "roundtrip"}[r.Intn(5)], W1: ws(), C1: r.Range(-3, 20)}
	switch c.Op {
	case "clash":
		c.W2 = ws()
		c.C2 = r.Range(-3, 20)
	case "divide":
		c.Coeff = r.Range(1, 7)
	case "round":
		c.Model = make([]int, n)
		for i := range c.Model {
			c.Model[i] = r.Range(-3, 3)
		}
		c.Locked = r.Intn(n)
		if c.W1[c.Locked] == 0 {
			c.W1[c.Locked] = r.Range(1, 9) // the locked variable is in the set (Go divides by zero otherwise)
		}
	case "roundtrip":
		c.C1 = r.Range(1, 20)
	}
	return CPCase{Kind: "pbop", PbOp: &c}
}

func init() {
	register(&Prop{
		ID: "C14",
		Rule: "problems solved or optimised with Solver.CuttingPlanes = true, with and without DetectAtMostOne first: uniform 3-SAT, pigeonhole and at-most-one-rich CNF (3..12 variables), cardinality / PB constraint sets as for C02, and constraint sets with a cost function (weights of either sign) as for C03. Verdict, model and optimum are judged by the verified exhaustive oracles (GS.bruteSat / GS.bruteOpt), the run is repeated with the strategy off, every constraint learned during the run (hook VerifSetLearnHook) must be entailed by the original problem (verified GS.entailsB), and sampled calls of cuttingPlanes (snapshot hook: state at entry, answer, conflict set before SimplifyPB) are compared with the Lean mirror GS.Cp.cpAnalyze, their states with its invariant cpInv. Non-trivial = at least one conflict with the strategy on; distinct = distinct (problem, detection flag).",
		Gens: []Gen{
			{Name: "family", Enum: func(tier string) []interface{} {
				size := c14FamilySize
				if tier == "thorough" {
					size = c14FamilySizeThorough
				}
				if v := os.Getenv("VERIF_C14_FAMILY"); v != "" { // exploration only: a larger prefix of the same stream
					fmt.Sscanf(v, "%d", &size)
				}
				res := make([]interface{}, size)
				for i := range res {
					c := genCPCase(NewRng(mix(c14FamilySeed, uint64(i))), tier)
					c.Fam = i + 1
					res[i] = c
				}
				return res
			}},
			{Name: "pbset-ops", Weight: 1, Make: func(r *Rng, tier string) interface{} { return genPbOpCase(r, tier) }},
		},
		Extra: []ExtraGen{{Gen{Name: "cp-db-reduction", Make: func(r *Rng, tier string) interface{} { return genCPReduction(r, tier) }}, 200, 6000}},
		Run: runCPCase,
		Classify: func(d json.RawMessage) []string {
			var c CPCase
			if json.Unmarshal(d, &c) == nil && c.Fam > 0 {
				return []string{fmt.Sprintf("C14-family-%d", c.Fam-1)}
			}
			return nil
		},
		Cases:   defCases(4000, 100000),
		Timeout: defDur(10*time.Second, 90*time.Second),
		Wall:    defDur(50*time.Second, 12*time.Minute),
	})
}

func runCPCase(o *Oracle, d json.RawMessage, oc *Outcome) {
	var c CPCase
	if err := json.Unmarshal(d, &c); err != nil {
		oc.Fail("crash", "harness", "", "bad case: %v", err)
		return
	}
	oc.Key = keyOf(c)
	oc.Tag("kind:" + c.Kind)
	if c.Fam > 0 {
		oc.Class(fmt.Sprintf("C14-family-%d", c.Fam-1))
	}
	if c.Kind == "pbop" {
		runPbOp(o, c.PbOp, oc)
		return
	}
	if c.AMO {
		oc.Tag("amo-detection")
	}
	var sem []Lin
	var n int
	build := func() *solver.Problem {
		var pb *solver.Problem
		if c.Kind == "cnf" {
			pb = solver.ParseSlice(copyCnf(c.Cnf.Clauses))
		} else {
			pb = c.Opt.problem()
		}
		if c.AMO && pb.Status != solver.Unsat {
			pb.DetectAtMostOne()
		}
		return pb
	}
	var coefs, lits []int
	if c.Kind == "cnf" {
		sem = cnfLins(c.Cnf.Clauses)
		n = c.Cnf.NbVars
		oc.Sample = "cnf " + cnfString(c.Cnf.Clauses)
	} else {
		sem = semAll(c.Opt.Constrs)
		n = maxVarConstrs(c.Opt.Constrs)
		coefs, lits = c.Opt.costTerms()
		oc.Sample = fmt.Sprintf("min %v*%v s.t. %s", c.Opt.CostW, c.Opt.CostLits, constrsString(c.Opt.Constrs))
	}
	sat, best := o.Opt(n, sem, coefs, lits)
	var stream []solver.Result
	entry := "solver.Solve(CuttingPlanes)"
	// strategy on, with the learn hook
	var learned []solver.PBConstr
	var learnedPhase []int // number of results already delivered when the constraint was learned
	var phase int32
	s := solver.New(build())
	s.CuttingPlanes = true
	// a third of the cases with a small limit on the learned constraints, so that their database is
	// reduced (reduceLearnedPB / unwatchPB) during the run
	smallDB := hashString(oc.Key)%3 == 0 || c.DB > 0
	if c.DB > 0 {
		s.VerifSetNbMax(c.DB)
		oc.Tag("db-reduction-case")
	} else if smallDB {
		s.VerifSetNbMax([]int{4, 8, 16}[hashString(oc.Key)/3%3])
		oc.Tag("small-learned-limit")
	}
	s.VerifSetLearnHook(func(pc solver.PBConstr) {
		learned = append(learned, pc)
		learnedPhase = append(learnedPhase, int(atomic.LoadInt32(&phase)))
	})
	defer s.VerifSetLearnHook(nil)
	var cps []solver.VerifCP
	nCP := 0
	s.VerifSetCPHook(func(c solver.VerifCP) {
		nCP++
		if (nCP <= 6 || nCP%15 == 0) && len(cps) < 20 {
			cps = append(cps, c)
		}
	})
	defer func() {
		s.VerifSetCPHook(nil)
		cpMirror(o, oc, cps, "solver.cuttingPlanes")
	}()
	check := func(entry string, status solver.Status, cost int, model []bool, withCost bool) {
		switch status {
		case solver.Unsat:
			if sat {
				oc.Fail("spec", "verdict", entry, "Unsat, but the problem is satisfiable")
			}
		case solver.Sat:
			if !sat {
				oc.Fail("spec", "verdict", entry, "Sat, but the problem is unsatisfiable")
				return
			}
			m := model
			if len(m) < n {
				m = append(append([]bool{}, m...), make([]bool, n-len(m))...)
			}
			if a := o.Eval(len(m), sem, m); a != "ok" {
				oc.Fail("spec", "model-satisfies-input", entry, "model %v: %s", model, a)
			}
			if withCost {
				if real := o.Cost(coefs, lits, m); real != cost {
					oc.Fail("spec", "cost-is-cost-of-model", entry, "reported cost %d, model costs %d", cost, real)
				}
				if cost != best {
					oc.Fail("spec", "optimum", entry, "reported optimum %d, true minimum %d", cost, best)
				}
			}
		default:
			oc.Fail("spec", "never-indet", entry, "status %v", status)
		}
	}
	if c.Kind == "opt" {
		entry = "solver.Optimal(CuttingPlanes)"
		r := runOptimalCount(s, &phase)
		stream = r.stream
		check(entry, r.res.Status, r.res.Weight, r.res.Model, !c.Opt.NoCost)
		s2 := solver.New(build())
		s2.CuttingPlanes = true
		if smallDB {
			s2.VerifSetNbMax(8)
		}
		cost2 := s2.Minimize()
		if cost2 == -1 && !(r.res.Status == solver.Sat && r.res.Weight == -1) { // -1 is Unsat, unless the optimum itself is -1
			check("solver.Minimize(CuttingPlanes)", solver.Unsat, 0, nil, false)
		} else {
			check("solver.Minimize(CuttingPlanes)", solver.Sat, cost2, s2.Model(), !c.Opt.NoCost)
		}
	} else {
		st := s.Solve()
		var m []bool
		if st == solver.Sat {
			m = s.Model()
		}
		check(entry, st, 0, m, false)
	}
	if s.Stats.NbConflicts > 0 {
		oc.Nontrivial = true
		oc.Tag("conflicts>0")
	}
	if len(learned) > 0 {
		oc.Tag("learned>0")
	}
	// During optimisation the problem grows by one cost bound per delivered result: a
	// constraint learned after k results must follow from the original constraints and the
	// bound "cost <= (k-th cost) - 1" (the phase counter may lag by one result).
	premises := func(k int) []Lin {
		if k == 0 || k > len(stream) || stream[k-1].Status != solver.Sat {
			return sem
		}
		neg := make([]int, len(coefs))
		for i, w := range coefs {
			neg[i] = -w
		}
		return append(append([]Lin{}, sem...), Lin{Coefs: neg, Lits: lits, Degree: -(stream[k-1].Weight - 1)})
	}
	for i, l := range learned {
		lin := Lin{Coefs: l.Weights, Lits: l.Lits, Degree: l.AtLeast}
		if maxVarLins([]Lin{lin}) > n {
			oc.Fail("spec", "learned-entailed", entry, "learned constraint %d mentions an unknown variable: %v", i, lin)
			break
		}
		k := learnedPhase[i]
		if !o.Entails(n, premises(k), lin) && !o.Entails(n, premises(k+1), lin) {
			oc.Fail("spec", "learned-entailed", entry, "learned constraint %d %v (learned after %d results) is not a consequence of the problem and the cost bound in force", i, lin, k)
			break
		}
	}
	// strategy off on the same problem: same verdict (and optimum)
	s3 := solver.New(build())
	if c.Kind == "opt" {
		r3 := s3.Optimal(nil, nil)
		check("solver.Optimal(default)", r3.Status, r3.Weight, r3.Model, !c.Opt.NoCost)
	} else {
		st := s3.Solve()
		var m []bool
		if st == solver.Sat {
			m = s3.Model()
		}
		check("solver.Solve(default)", st, 0, m, false)
	}
}


func fmtPb(w []int, c int) string { return fmt.Sprintf("%s | %d", encInts(w), c) }

// runPbOp: exact differential of one pbSet operation between /repo (through the verif
// wrappers) and the Lean mirror.
func runPbOp(o *Oracle, c *PbOpCase, oc *Outcome) {
	oc.Nontrivial = true
	oc.Tag("op:" + c.Op)
	oc.Corr++
	oc.Sample = fmt.Sprintf("%s %v/%d %v/%d coeff=%d model=%v locked=%d", c.Op, c.W1, c.C1, c.W2, c.C2, c.Coeff, c.Model, c.Locked)
	var got, want string
	switch c.Op {
	case "clash":
		r := solver.VerifClash(solver.VerifPbSet{Weights: c.W1, Card: c.C1}, solver.VerifPbSet{Weights: c.W2, Card: c.C2})
		got = fmtPb(r.Weights, r.Card)
		want = o.Ask(fmt.Sprintf("clash %s | %d | %s | %d", encInts(c.W1), c.C1, encInts(c.W2), c.C2))
	case "divide":
		r := solver.VerifDivideBy(solver.VerifPbSet{Weights: c.W1, Card: c.C1}, c.Coeff)
		got = fmtPb(r.Weights, r.Card)
		want = o.Ask(fmt.Sprintf("divide %s | %d | %d", encInts(c.W1), c.C1, c.Coeff))
	case "round":
		r := solver.VerifRoundToOne(solver.VerifPbSet{Weights: c.W1, Card: c.C1}, c.Model, c.Locked)
		got = fmtPb(r.Weights, r.Card)
		want = o.Ask(fmt.Sprintf("round %s | %d | %s | %d", encInts(c.W1), c.C1, encInts(c.Model), c.Locked))
	case "roundtrip":
		// constraint -> pbSet -> constraint keeps the same (literal, weight) multiset and degree
		var lits, ws []int
		for i, w := range c.W1 {
			if w > 0 {
				lits = append(lits, i+1)
				ws = append(ws, w)
			} else if w < 0 {
				lits = append(lits, -(i + 1))
				ws = append(ws, -w)
			}
		}
		if len(lits) == 0 {
			return
		}
		for i := range ws { // PBConstr.Clause saturates weights at the degree
			if ws[i] > c.C1 {
				ws[i] = c.C1
			}
		}
		r := solver.VerifPbSetRoundTrip(solver.PBConstr{Lits: append([]int{}, lits...), Weights: append([]int{}, ws...), AtLeast: c.C1}, len(c.W1))
		back := make([]int, len(c.W1))
		for i, l := range r.Lits {
			if l > 0 {
				back[l-1] = r.Weights[i]
			} else {
				back[-l-1] = -r.Weights[i]
			}
		}
		sat := make([]int, len(c.W1))
		for i, l := range lits {
			if l > 0 {
				sat[l-1] = ws[i]
			} else {
				sat[-l-1] = -ws[i]
			}
		}
		got = fmtPb(back, r.AtLeast)
		want = fmtPb(sat, c.C1)
	}
	if got != want {
		oc.Fail("corr", "pbset-"+c.Op, "solver.pbSet."+c.Op, "Go %s, Lean mirror %s on %s", got, want, oc.Sample)
	}
}


// runOptimalCount is runOptimal with an unbuffered channel whose consumer counts the results
// received so far in *phase.
func runOptimalCount(s solver.Interface, phase *int32) optRun {
	ch := make(chan solver.Result)
	done := make(chan optRun)
	go func() {
		var r optRun
		for x := range ch {
			atomic.AddInt32(phase, 1)
			r.stream = append(r.stream, x)
		}
		r.closed = true
		done <- r
	}()
	res := s.Optimal(ch, nil)
	r := <-done
	r.res = res
	return r
}

// cpMirror ties each sampled call of cuttingPlanes to its Lean mirror GS.Cp.cpAnalyze (theorems
// cpAnalyze_derivable / _sound / _unsat: under cpInv the conflict set is derivable from the problem,
// the units and the learned constraint hold in every model, Unsat only without models): same
// answer, same conflict set before SimplifyPB, the invariant cpInv on the real state, and the
// executable asserting / progress conditions.
func cpMirror(o *Oracle, oc *Outcome, samples []solver.VerifCP, entry string) {
	for i, sp := range samples {
		q := sp.Query
		inv := o.Ask("cpanalyze_inv " + q)
		if strings.Contains(inv, "distinct") {
			// top-level units returned by an earlier analysis were bound again: the same literal sits
			// twice on the trail (harmless); the hypotheses are checked without the repetition
			q = cpDedup(q)
			inv = o.Ask("cpanalyze_inv " + q)
			oc.Tag("cp-trail-with-repeated-fact")
		}
		got := o.Ask("cpanalyze " + q)
		oc.Corr++
		if !cpSame(sp.Answer, got) {
			oc.Fail("corr", "cpanalyze-mirror", entry, "analysis %d: cuttingPlanes returned %q, the Lean mirror GS.Cp.cpAnalyze %q on %s", i, sp.Answer, got, q)
			return
		}
		if !strings.HasPrefix(inv, "inv 1") {
			oc.Fail("corr", "cpanalyze-invariant", entry, "analysis %d: the solver state does not meet cpInv, the hypothesis of cpAnalyze_derivable (%s) on %s", i, inv, q)
			return
		}
		if chk := o.Ask("cpanalyze_check " + q); chk != "assert 1 progress 1" {
			oc.Fail("corr", "cpanalyze-progress", entry, "analysis %d: %s (asserting: the learned constraint propagates the returned literal after the backjump; progress: something new is learned) on %s", i, chk, q)
			return
		}
	}
	if len(samples) > 0 {
		oc.Tag("cp-analyses-compared")
	}
}

// cpSame compares the hook's answer with the mirror's: Go's sort is not stable beyond 12 terms,
// so when the mirror marks the case tie-sensitive only the kind of answer and the conflict set
// before SimplifyPB are compared.
func cpSame(goAns, mirror string) bool {
	tie := strings.HasSuffix(mirror, " | tie")
	mirror = strings.TrimSuffix(mirror, " | tie")
	norm := func(s string) (kind, body, raw string) {
		if k := strings.Index(s, " | raw "); k >= 0 {
			raw, s = s[k+7:], s[:k]
		}
		f := strings.Fields(s)
		if len(f) == 0 {
			return "", "", raw
		}
		kind = f[0]
		body = strings.Join(f[1:], " ")
		if strings.HasPrefix(kind, "units@") { // learned == nil
			lvl := strings.TrimPrefix(kind, "units@")
			if lvl == "1" {
				kind = "units"
			} else {
				kind, body = "learned", lvl+" "+body+" | nil"
			}
		}
		if kind == "learned" && strings.HasSuffix(body, "| nil") {
			g := strings.Fields(body)
			if len(g) >= 2 && g[0] == "1" { // nothing learned, literal asserted at the top level
				kind, body = "units", g[1]
			}
		}
		return
	}
	k1, b1, r1 := norm(goAns)
	k2, b2, r2 := norm(mirror)
	if tie {
		return k1 == k2 && r1 == r2
	}
	return k1 == k2 && b1 == b2 && r1 == r2
}

// cpDedup removes repeated trail entries (same literal) from a cpanalyze query.
func cpDedup(q string) string {
	parts := strings.Split(q, " | ")
	if len(parts) != 4 {
		return q
	}
	tr := strings.Split(parts[2], " ; ")
	rs := strings.Split(parts[3], " ; ")
	if len(tr) != len(rs) {
		return q
	}
	seen := map[string]bool{}
	var tr2, rs2 []string
	for i := range tr {
		lit := strings.Fields(tr[i])
		if len(lit) > 0 && seen[lit[0]] {
			continue
		}
		if len(lit) > 0 {
			seen[lit[0]] = true
		}
		tr2, rs2 = append(tr2, tr[i]), append(rs2, rs[i])
	}
	return parts[0] + " | " + parts[1] + " | " + strings.Join(tr2, " ; ") + " | " + strings.Join(rs2, " ; ")
}
