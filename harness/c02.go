package main

import (
	"encoding/json"
	"fmt"
	"strings"
	"time"

	"github.com/crillab/gophersat/solver"
)

// Constr is a constraint as the caller writes it, before any normalisation.
type Constr struct {
	Kind    string `json:"k"` // clause | atleast | atmost | atleast1 | atmost1 | exactly1 | gteq | lteq | eq
	Lits    []int  `json:"l"`
	Weights []int  `json:"w,omitempty"`
	N       int    `json:"n"`
}

// sem gives the integer-arithmetic meaning of c as linear constraints Σ coef·[lit] ≥ degree.
func (c Constr) sem() []Lin {
	ones := func(s int) []int {
		w := make([]int, len(c.Lits))
		for i := range w {
			w[i] = s
		}
		return w
	}
	neg := func(w []int) []int {
		r := make([]int, len(w))
		for i := range w {
			r[i] = -w[i]
		}
		return r
	}
	lits := append([]int(nil), c.Lits...)
	switch c.Kind {
	case "clause", "atleast1":
		return []Lin{{Coefs: ones(1), Lits: lits, Degree: 1}}
	case "atleast":
		return []Lin{{Coefs: ones(1), Lits: lits, Degree: c.N}}
	case "atmost":
		return []Lin{{Coefs: ones(-1), Lits: lits, Degree: -c.N}}
	case "atmost1":
		return []Lin{{Coefs: ones(-1), Lits: lits, Degree: -1}}
	case "exactly1":
		return []Lin{{Coefs: ones(1), Lits: lits, Degree: 1}, {Coefs: ones(-1), Lits: lits, Degree: -1}}
	case "gteq":
		return []Lin{{Coefs: append([]int(nil), c.Weights...), Lits: lits, Degree: c.N}}
	case "lteq":
		return []Lin{{Coefs: neg(c.Weights), Lits: lits, Degree: -c.N}}
	case "eq":
		return []Lin{{Coefs: append([]int(nil), c.Weights...), Lits: lits, Degree: c.N}, {Coefs: neg(c.Weights), Lits: append([]int(nil), lits...), Degree: -c.N}}
	}
	panic("unknown constraint kind " + c.Kind)
}

func semAll(cs []Constr) []Lin {
	var res []Lin
	for _, c := range cs {
		res = append(res, c.sem()...)
	}
	return res
}

// pb builds the solver.PBConstr(s) through the public constructors (which take ownership of
// their arguments, hence the copies).
func (c Constr) pb() []solver.PBConstr {
	l := append([]int(nil), c.Lits...)
	w := append([]int(nil), c.Weights...)
	switch c.Kind {
	case "clause", "atleast1":
		return []solver.PBConstr{solver.PropClause(l...)}
	case "atleast":
		return []solver.PBConstr{solver.AtLeast(l, c.N)}
	case "atmost":
		return []solver.PBConstr{solver.AtMost(l, c.N)}
	case "atmost1":
		return []solver.PBConstr{solver.AtMost(l, 1)}
	case "exactly1":
		return []solver.PBConstr{solver.PropClause(l...), solver.AtMost(append([]int(nil), c.Lits...), 1)}
	case "gteq":
		return []solver.PBConstr{solver.GtEq(l, w, c.N)}
	case "lteq":
		return []solver.PBConstr{solver.LtEq(l, w, c.N)}
	case "eq":
		return solver.Eq(l, w, c.N)
	}
	panic("unknown constraint kind " + c.Kind)
}

// card builds solver.CardConstr(s); only for unit-weight kinds.
func (c Constr) card() []solver.CardConstr {
	l := append([]int(nil), c.Lits...)
	switch c.Kind {
	case "clause", "atleast1":
		return []solver.CardConstr{solver.AtLeast1(l...)}
	case "atleast":
		return []solver.CardConstr{{Lits: l, AtLeast: c.N}}
	case "atmost":
		neg := make([]int, len(l))
		for i := range l {
			neg[i] = -l[i]
		}
		return []solver.CardConstr{{Lits: neg, AtLeast: len(l) - c.N}}
	case "atmost1":
		return []solver.CardConstr{solver.AtMost1(l...)}
	case "exactly1":
		return solver.Exactly1(l...)
	}
	panic("kind not expressible as a cardinality constraint: " + c.Kind)
}

func (c Constr) String() string {
	if c.Weights != nil {
		return fmt.Sprintf("%s(%v,%v,%d)", c.Kind, c.Lits, c.Weights, c.N)
	}
	return fmt.Sprintf("%s(%v,%d)", c.Kind, c.Lits, c.N)
}

func constrsString(cs []Constr) string {
	s := ""
	for _, c := range cs {
		s += c.String() + " "
	}
	if len(s) > 400 {
		s = s[:400] + "…"
	}
	return s
}

func maxVarConstrs(cs []Constr) int {
	m := 0
	for _, c := range cs {
		for _, l := range c.Lits {
			if absInt(l) > m {
				m = absInt(l)
			}
		}
	}
	return m
}

// genConstr draws one constraint over distinct variables; cardOnly restricts to unit weights.
func genConstr(r *Rng, n int, cardOnly bool, W int) Constr {
	k := r.Range(1, min2(n, 6))
	lits := randClauseDistinct(r, n, k)
	kinds := []string{"clause", "atleast", "atmost", "atmost1", "exactly1", "atleast1", "atleast", "atmost"}
	if !cardOnly {
		kinds = append(kinds, "gteq", "lteq", "eq", "gteq", "lteq", "eq", "gteq")
	}
	kind := kinds[r.Intn(len(kinds))]
	c := Constr{Kind: kind, Lits: lits}
	switch kind {
	case "atleast", "atmost":
		c.N = r.Range(-1, k+1) // includes trivially true and trivially false degrees
	case "gteq", "lteq", "eq":
		c.Weights = make([]int, k)
		sum, sumNeg := 0, 0
		for i := range c.Weights {
			w := r.Range(-W, W)
			if r.Chance(1, 12) {
				w = 0
			}
			c.Weights[i] = w
			if w > 0 {
				sum += w
			} else {
				sumNeg += w
			}
		}
		c.N = r.Range(sumNeg-1, sum+1)
	}
	return c
}

func min2(a, b int) int {
	if a < b {
		return a
	}
	return b
}

type ConstrCase struct {
	Front   string   `json:"front"` // card | pb
	Constrs []Constr `json:"constrs"`
	CP      bool     `json:"cp,omitempty"`  // cutting planes (C14)
	AMO     bool     `json:"amo,omitempty"` // DetectAtMostOne first (C14/C15)
}

func genConstrCase(r *Rng, tier string) ConstrCase {
	n := r.Range(1, 10)
	cardOnly := r.Chance(2, 5)
	W := []int{3, 9, 1 << 20}[r.Intn(3)]
	if r.Chance(4, 5) {
		W = []int{3, 9}[r.Intn(2)]
	}
	m := r.Range(1, 2*n+2)
	cs := make([]Constr, 0, m)
	for i := 0; i < m; i++ {
		if r.Chance(1, 6) { // unit constraint, triggers parse-time simplification
			cs = append(cs, Constr{Kind: "clause", Lits: []int{randLit(r, n)}})
			continue
		}
		cs = append(cs, genConstr(r, n, cardOnly, W))
	}
	front := "pb"
	if cardOnly && r.Bool() {
		front = "card"
	}
	return ConstrCase{Front: front, Constrs: cs}
}

// genSearchyCase: fewer, mid-degree constraints over more variables, so that parsing does not
// decide the problem and the search (with card / PB propagation and learning) runs.
func genSearchyCase(r *Rng, tier string) ConstrCase {
	n := r.Range(5, 13)
	cardOnly := r.Chance(2, 5)
	W := []int{3, 9}[r.Intn(2)]
	m := r.Range(n/2+1, 2*n)
	cs := make([]Constr, 0, m)
	for i := 0; i < m; i++ {
		k := r.Range(2, min2(n, 6))
		lits := randClauseDistinct(r, n, k)
		var c Constr
		switch x := r.Intn(10); {
		case x < 2:
			c = Constr{Kind: "clause", Lits: lits}
		case x < 4:
			c = Constr{Kind: "atleast", Lits: lits, N: r.Range(1, k-1)}
		case x < 6:
			c = Constr{Kind: "atmost", Lits: lits, N: r.Range(1, k-1)}
		case x < 7 || cardOnly:
			c = Constr{Kind: []string{"atmost1", "exactly1"}[r.Intn(2)], Lits: lits}
		default:
			ws := make([]int, k)
			lo, hi := 0, 0
			for j := range ws {
				ws[j] = r.Range(-W, W)
				if ws[j] > 0 {
					hi += ws[j]
				} else {
					lo += ws[j]
				}
			}
			mid := (lo + hi) / 2
			c = Constr{Kind: []string{"gteq", "lteq", "eq"}[r.Intn(3)], Lits: lits, Weights: ws, N: r.Range(mid-2, mid+2)}
			if c.Kind == "gteq" {
				c.N = r.Range(lo+1, mid+1)
			} else if c.Kind == "lteq" {
				c.N = r.Range(mid-1, hi-1)
			}
		}
		cs = append(cs, c)
	}
	if r.Chance(1, 3) {
		cs = append(cs, Constr{Kind: "clause", Lits: []int{randLit(r, n)}})
	}
	front := "pb"
	if cardOnly && r.Bool() {
		front = "card"
	}
	return ConstrCase{Front: front, Constrs: cs}
}

func buildConstrProblem(c *ConstrCase) *solver.Problem {
	if c.Front == "card" {
		var cc []solver.CardConstr
		for _, k := range c.Constrs {
			cc = append(cc, k.card()...)
		}
		return solver.ParseCardConstrs(cc)
	}
	var pc []solver.PBConstr
	for _, k := range c.Constrs {
		pc = append(pc, k.pb()...)
	}
	return solver.ParsePBConstrs(pc)
}

func init() {
	register(&Prop{
		ID: "C02",
		Rule: "1..22 constraints over 1..10 variables, each drawn from clause / at-least-k / at-most-k / at-most-1 / exactly-1 / >= / <= / = with coefficients in [-W,W] (W in 3, 9, 2^20; zero coefficients included) and degrees from below the minimum to above the maximum of the left-hand side, mixed with unit constraints; through ParseCardConstrs (unit-weight kinds) or ParsePBConstrs. Each variable occurs at most once per constraint. Non-trivial = status undetermined after parsing (search ran) or at least one parse-time unit; distinct = distinct constraint list + front-end.",
		Slices: []SliceRef{{"XPBPROP", 800, 30000}, {"XPBWATCH", 500, 20000}},
		Gens: []Gen{
			{Name: "mixed", Weight: 1, Make: func(r *Rng, tier string) interface{} { return genConstrCase(r, tier) }},
			{Name: "searchy", Weight: 2, Make: func(r *Rng, tier string) interface{} { return genSearchyCase(r, tier) }},
			// the arithmetic on constraints the cutting-planes option resolves with (exact differential
			// with GS.PbSet, as in C14): the option is one of the configurations this property is solved under
			{Name: "pbset-ops", Weight: 1, Make: func(r *Rng, tier string) interface{} { return genPbOpCase(r, tier) }},
		},
		Run: func(o *Oracle, d json.RawMessage, oc *Outcome) {
			var probe struct {
				Kind string `json:"kind"`
			}
			if json.Unmarshal(d, &probe) == nil && probe.Kind == "pbop" {
				runCPCase(o, d, oc)
				return
			}
			runConstrCase(o, d, oc)
		},
		Cases:   defCases(6000, 150000),
		Timeout: defDur(20*time.Second, 60*time.Second),
		Wall:    defDur(50*time.Second, 12*time.Minute),
	})
}

func runConstrCase(o *Oracle, d json.RawMessage, oc *Outcome) {
	var c ConstrCase
	if err := json.Unmarshal(d, &c); err != nil {
		oc.Fail("crash", "harness", "", "bad case: %v", err)
		return
	}
	oc.Key = keyOf(c)
	oc.Sample = fmt.Sprintf("front=%s %s", c.Front, constrsString(c.Constrs))
	oc.Tag("front:" + c.Front)
	sem := semAll(c.Constrs)
	n := maxVarConstrs(c.Constrs)
	for _, k := range c.Constrs {
		constructorDiff(o, oc, k)
	}
	pb := buildConstrProblem(&c)
	frontEndDiff(o, oc, &c)
	callerValuesKept(oc, &c)
	entry := "solver.Parse" + map[string]string{"card": "CardConstrs", "pb": "PBConstrs"}[c.Front] + "+Solve"
	if pb.Status == solver.Indet || len(pb.Units) > 0 {
		oc.Nontrivial = true
	}
	switch pb.Status {
	case solver.Indet:
		oc.Tag("search")
	case solver.Sat:
		oc.Tag("parse-sat")
	case solver.Unsat:
		oc.Tag("parse-unsat")
	}
	if c.AMO {
		pb.DetectAtMostOne()
	}
	s := solver.New(pb)
	s.CuttingPlanes = c.CP
	// conflict analysis over cardinality / PB antecedents: sampled snapshots (hook) are compared
	// with the Lean mirror of learnClause (GS.Analyze, theorem analyze_sound_pb)
	analyses := sampleAnalyses(s, 8, 20, 30)
	st := s.Solve()
	s.VerifSetAnalyzeHook(nil)
	if pb.Status == solver.Indet {
		analysisMirror(o, oc, *analyses, entry)
		trailPbReplay(o, oc, *analyses, entry)
	}
	truth := o.Sat(n, sem)
	switch st {
	case solver.Sat:
		oc.Tag("sat")
		m := s.Model()
		if !truth {
			oc.Fail("spec", "verdict", entry, "answered Sat, constraints are unsatisfiable")
		}
		if len(m) < n {
			// variables that only occur in dropped (trivially true) constraints may be undeclared:
			// complete the model arbitrarily
			m = append(m, make([]bool, n-len(m))...)
			oc.Tag("model-shorter-than-vars")
		}
		if a := o.Eval(len(m), sem, m); a != "ok" {
			oc.Fail("spec", "model-satisfies-input", entry, "model %v: %s of %v", m, a, sem)
		}
	case solver.Unsat:
		oc.Tag("unsat")
		if truth {
			oc.Fail("spec", "verdict", entry, "answered Unsat, constraints are satisfiable")
		}
	default:
		oc.Fail("spec", "never-indet", entry, "Solve returned %v", st)
	}
	if s.Stats.NbConflicts > 0 {
		oc.Tag("conflicts>0")
	}
}


func fmtPBC(p solver.PBConstr, sep string) string {
	w := p.Weights
	if w == nil {
		w = make([]int, len(p.Lits))
		for i := range w {
			w[i] = 1
		}
	}
	return encInts(p.Lits) + sep + encInts(w) + sep + fmt.Sprint(p.AtLeast)
}

// constructorDiff: the public constructor applied to the caller's arguments must build
// exactly what the Lean mirror GS.Constr.* builds (same literals, weights and degree, in the
// same order).
func constructorDiff(o *Oracle, oc *Outcome, k Constr) {
	l := append([]int(nil), k.Lits...)
	w := append([]int(nil), k.Weights...)
	var got, want, name string
	switch k.Kind {
	case "gteq":
		name = "GtEq"
		got = fmtPBC(solver.GtEq(l, w, k.N), " | ")
		want = o.Ask(fmt.Sprintf("gteq %s | %s | %d", encInts(k.Lits), encInts(k.Weights), k.N))
	case "lteq":
		name = "LtEq"
		got = fmtPBC(solver.LtEq(l, w, k.N), " | ")
		want = o.Ask(fmt.Sprintf("lteq %s | %s | %d", encInts(k.Lits), encInts(k.Weights), k.N))
	case "eq":
		name = "Eq"
		var parts []string
		for _, c := range solver.Eq(l, w, k.N) {
			parts = append(parts, fmtPBC(c, " / "))
		}
		got = strings.Join(parts, " ; ")
		want = o.Ask(fmt.Sprintf("eq %s | %s | %d", encInts(k.Lits), encInts(k.Weights), k.N))
	case "atmost":
		name = "AtMost"
		c := solver.AtMost(l, k.N)
		got = encInts(c.Lits) + " | " + fmt.Sprint(c.AtLeast)
		want = o.Ask(fmt.Sprintf("atmost %s | %d", encInts(k.Lits), k.N))
	default:
		return
	}
	oc.Corr++
	if got != want {
		oc.Fail("corr", "constructor-mirror", "solver."+name, "%s: Go built %q, the Lean mirror %q", k.String(), got, want)
	}
}


// frontEndDiff: ParseCardConstrs / ParsePBConstrs (prologue + simplifyCard / simplifyPB) must
// produce exactly what the Lean mirrors GS.Simplify.parseCardConstrs / parsePBConstrs produce.
func frontEndDiff(o *Oracle, oc *Outcome, c *ConstrCase) {
	var groups []string
	var got, want, name string
	if c.Front == "card" {
		name = "ParseCardConstrs"
		var cc []solver.CardConstr
		for _, k := range c.Constrs {
			cc = append(cc, k.card()...)
		}
		for _, k := range cc {
			groups = append(groups, strings.TrimSpace(fmt.Sprintf("%d %s", k.AtLeast, encInts(k.Lits))))
		}
		pb := solver.ParseCardConstrs(cc)
		withCard = true
		got = strings.TrimRight(fmtProblem(pb, false), " ")
		withCard = false
		want = mirrorProblem(o.Ask("pcard " + strings.Join(groups, " ; ")))
	} else {
		name = "ParsePBConstrs"
		var pc []solver.PBConstr
		for _, k := range c.Constrs {
			pc = append(pc, k.pb()...)
		}
		for _, k := range pc {
			w := k.Weights
			if w == nil {
				w = make([]int, len(k.Lits))
				for i := range w {
					w[i] = 1
				}
			}
			g := fmt.Sprint(k.AtLeast)
			for i := range k.Lits {
				g += fmt.Sprintf(" %d %d", w[i], k.Lits[i])
			}
			groups = append(groups, g)
		}
		pc2 := make([]solver.PBConstr, len(pc)) // ParsePBConstrs takes ownership of its argument
		for i, k := range pc {
			pc2[i] = solver.PBConstr{Lits: append([]int{}, k.Lits...), AtLeast: k.AtLeast}
			if k.Weights != nil {
				pc2[i].Weights = append([]int{}, k.Weights...)
			}
		}
		pb := solver.ParsePBConstrs(pc2)
		got = strings.TrimRight(fmtProblem(pb, true), " ")
		want = mirrorProblem(o.Ask("ppb " + strings.Join(groups, " ; ")))
	}
	oc.Corr++
	if got != want {
		oc.Fail("corr", "frontend-mirror", "solver."+name, "Go parsed to %q, the Lean mirror GS.Simplify to %q (input %s)", got, want, strings.Join(groups, " ; "))
	}
}

// callerValuesKept: "the returned model satisfies every constraint as the caller wrote it" is
// judged on the harness's own description of the constraints; the values the caller handed to the
// front end must still say the same afterwards, and parsing them again must give the same problem.
func callerValuesKept(oc *Outcome, c *ConstrCase) {
	if c.Front == "card" {
		var cc []solver.CardConstr
		for _, k := range c.Constrs {
			cc = append(cc, k.card()...)
		}
		before := fmt.Sprint(cc)
		p1 := fmtProblem(solver.ParseCardConstrs(cc), true)
		if after := fmt.Sprint(cc); after != before {
			oc.Fail("spec", "caller-constraints-unchanged", "solver.ParseCardConstrs", "the caller's constraints %s read %s after the call", before, after)
			return
		}
		if p2 := fmtProblem(solver.ParseCardConstrs(cc), true); p2 != p1 {
			oc.Fail("spec", "caller-constraints-unchanged", "solver.ParseCardConstrs", "parsing the same values twice gives %q then %q", p1, p2)
		}
		return
	}
	var pc []solver.PBConstr
	for _, k := range c.Constrs {
		pc = append(pc, k.pb()...)
	}
	before := fmt.Sprint(pc)
	p1 := fmtProblem(solver.ParsePBConstrs(pc), true)
	if after := fmt.Sprint(pc); after != before {
		oc.Fail("spec", "caller-constraints-unchanged", "solver.ParsePBConstrs", "the caller's constraints %s read %s after the call", before, after)
		return
	}
	if p2 := fmtProblem(solver.ParsePBConstrs(pc), true); p2 != p1 {
		oc.Fail("spec", "caller-constraints-unchanged", "solver.ParsePBConstrs", "parsing the same values twice gives %q then %q", p1, p2)
	}
}

// trailPbReplay: every sampled conflict state is a run of the abstract trail machine with
// cardinality / PB antecedents (GS.TrailPb: step_preserves_invPb, reachable_analyze_sound_pb): the
// trail replayed as decide / propagate / propagatePb / fact operations must be accepted (every
// antecedent forced its literal when it was used) and end in a state on which the conflict is falsified.
func trailPbReplay(o *Oracle, oc *Outcome, as []solver.VerifAnalysis, entry string) {
	isClause := func(c *solver.PBConstr) bool {
		if c.AtLeast != 1 {
			return false
		}
		for _, w := range c.Weights {
			if w != 1 {
				return false
			}
		}
		return true
	}
	lin := func(c *solver.PBConstr) string {
		g := fmt.Sprint(c.AtLeast)
		for i, l := range c.Lits {
			w := 1
			if c.Weights != nil {
				w = c.Weights[i]
			}
			g += fmt.Sprintf(" %d %d", w, l)
		}
		return g
	}
	for i := range as {
		if i >= 6 {
			break
		}
		d := dedupTrail(&as[i])
		var ops []string
		for j, l := range d.Trail {
			switch r := d.Reasons[j]; {
			case r != nil && isClause(r):
				ops = append(ops, fmt.Sprintf("2 %d %s", l, encInts(r.Lits)))
			case r != nil:
				ops = append(ops, fmt.Sprintf("7 %d %s", l, lin(r)))
			case d.Levels[j] == 1 && d.Assumed[j]:
				ops = append(ops, fmt.Sprintf("6 %d", l))
			case d.Levels[j] == 1:
				ops = append(ops, fmt.Sprintf("5 %d", l))
			default:
				ops = append(ops, fmt.Sprintf("1 %d", l))
			}
		}
		q := fmt.Sprintf("trailpb_run | %s | %s", strings.Join(ops, " ; "), encInts(d.Conflict.Lits))
		if !isClause(&d.Conflict) {
			q = fmt.Sprintf("trailpb_run | %s | | %s", strings.Join(ops, " ; "), lin(&d.Conflict))
		}
		r := o.Ask(q)
		oc.Corr++
		if !strings.HasPrefix(r, fmt.Sprintf("state %d |", d.Lvl)) || !strings.Contains(r, "| inv 1 | falsified 1 ") {
			oc.Fail("corr", "trail-machine", entry, "the solver state at conflict %d is not a run of the abstract trail machine GS.TrailPb ending in a falsified conflict: %s (query %s)", i, r, q)
			return
		}
	}
}
